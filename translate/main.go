// translate regenerates the Gallina files coq/Gen/*.v from the current Go
// source of seehuhn/go-pdf (DESIGN.md §2.3).
//
// What is translated is listed in spec.d/*.json (one file per generated .v):
//
//	{"kind":"const", "pkg":".", "name":"maxXRefSize"}           one constant
//	{"kind":"consts","pkg":".", "type":"Perm"}                   all constants of a named type
//	{"kind":"table", "pkg":".", "name":"class", "size":256}      array/slice literal of constants
//	{"kind":"func",  "pkg":".", "name":"stdSecPermToP", "width":32, "signed":false}
//
// Constants and tables are evaluated (iota, shifts, references to other
// constants).  Functions must lie in a loop-free pure-integer subset of Go;
// everything else is an error (exit status 1): the check then reports that the
// tie between source and model is broken rather than guessing.
package main

import (
	"encoding/json"
	"flag"
	"fmt"
	"go/ast"
	"go/parser"
	"go/token"
	"math/big"
	"os"
	"path/filepath"
	"sort"
	"strconv"
	"strings"
)

type item struct {
	Kind   string   `json:"kind"`
	Pkg    string   `json:"pkg"`
	Name   string   `json:"name"`
	Recv   string   `json:"recv"`
	Type   string   `json:"type"`
	Size   int      `json:"size"`
	Width  int      `json:"width"`
	Signed bool     `json:"signed"`
	As     string   `json:"as"`     // optional Coq name
	Field  string   `json:"field"`  // table of struct literals: the field to take
	Params []string `json:"params"` // rangebound: receiver fields that become parameters; assign: local names
	Var    string   `json:"var"`    // assign: the variable whose defining expression is translated
}

type spec struct {
	Out   string `json:"out"`
	Items []item `json:"items"`
}

type pkgInfo struct {
	fset   *token.FileSet
	files  []*ast.File
	consts map[string]*constDecl
	vars   map[string]ast.Expr
	funcs  map[string]*ast.FuncDecl
	order  []string
}

type constDecl struct {
	name string
	expr ast.Expr
	iota int64
	typ  string
	val  *big.Int
	busy bool
}

type terr struct{ msg string }

func fail(pos token.Position, format string, a ...any) {
	panic(terr{fmt.Sprintf("%s: ", pos) + fmt.Sprintf(format, a...)})
}

var pkgs = map[string]*pkgInfo{}
var repo string

func loadPkg(rel string) *pkgInfo {
	if p, ok := pkgs[rel]; ok {
		return p
	}
	dir := filepath.Join(repo, rel)
	fset := token.NewFileSet()
	ents, err := os.ReadDir(dir)
	if err != nil {
		panic(terr{err.Error()})
	}
	p := &pkgInfo{fset: fset, consts: map[string]*constDecl{}, vars: map[string]ast.Expr{}, funcs: map[string]*ast.FuncDecl{}}
	for _, e := range ents {
		n := e.Name()
		if !strings.HasSuffix(n, ".go") || strings.HasSuffix(n, "_test.go") || strings.HasPrefix(n, "verif_") {
			continue
		}
		f, err := parser.ParseFile(fset, filepath.Join(dir, n), nil, 0)
		if err != nil {
			panic(terr{err.Error()})
		}
		if strings.HasSuffix(f.Name.Name, "_test") || f.Name.Name == "main" && rel != "." {
			continue
		}
		p.files = append(p.files, f)
		for _, d := range f.Decls {
			switch d := d.(type) {
			case *ast.FuncDecl:
				key := d.Name.Name
				if d.Recv != nil && len(d.Recv.List) == 1 {
					t := d.Recv.List[0].Type
					if s, ok := t.(*ast.StarExpr); ok {
						t = s.X
					}
					if id, ok := t.(*ast.Ident); ok {
						key = id.Name + "." + key
					}
				}
				p.funcs[key] = d
			case *ast.GenDecl:
				switch d.Tok {
				case token.CONST:
					var lastExprs []ast.Expr
					lastType := ""
					for i, sp := range d.Specs {
						vs := sp.(*ast.ValueSpec)
						if len(vs.Values) > 0 {
							lastExprs = vs.Values
							lastType = ""
							if id, ok := vs.Type.(*ast.Ident); ok {
								lastType = id.Name
							}
						}
						for j, nm := range vs.Names {
							if j < len(lastExprs) {
								p.consts[nm.Name] = &constDecl{name: nm.Name, expr: lastExprs[j], iota: int64(i), typ: lastType}
								p.order = append(p.order, nm.Name)
							}
						}
					}
				case token.VAR:
					for _, sp := range d.Specs {
						vs := sp.(*ast.ValueSpec)
						for j, nm := range vs.Names {
							if j < len(vs.Values) {
								p.vars[nm.Name] = vs.Values[j]
							}
						}
					}
				}
			}
		}
	}
	pkgs[rel] = p
	return p
}

// ---- constant evaluation ----

func (p *pkgInfo) constVal(name string, at token.Pos) *big.Int {
	c, ok := p.consts[name]
	if !ok {
		fail(p.fset.Position(at), "unknown constant %s", name)
	}
	if c.val != nil {
		return c.val
	}
	if c.busy {
		fail(p.fset.Position(at), "constant cycle at %s", name)
	}
	c.busy = true
	c.val = p.eval(c.expr, c.iota)
	c.busy = false
	return c.val
}

func (p *pkgInfo) eval(e ast.Expr, iota int64) *big.Int {
	switch x := e.(type) {
	case *ast.BasicLit:
		switch x.Kind {
		case token.INT:
			v, ok := new(big.Int).SetString(strings.ReplaceAll(x.Value, "_", ""), 0)
			if !ok {
				fail(p.fset.Position(x.Pos()), "bad int literal %s", x.Value)
			}
			return v
		case token.CHAR:
			r, _, _, err := strconv.UnquoteChar(x.Value[1:len(x.Value)-1], '\'')
			if err != nil {
				fail(p.fset.Position(x.Pos()), "bad char literal %s", x.Value)
			}
			return big.NewInt(int64(r))
		}
	case *ast.Ident:
		if x.Name == "iota" {
			return big.NewInt(iota)
		}
		return new(big.Int).Set(p.constVal(x.Name, x.Pos()))
	case *ast.SelectorExpr:
		// pkg.Const: resolve through the import path of the file
		if id, ok := x.X.(*ast.Ident); ok {
			if q := p.resolveImport(id.Name); q != nil {
				return new(big.Int).Set(q.constVal(x.Sel.Name, x.Pos()))
			}
		}
	case *ast.ParenExpr:
		return p.eval(x.X, iota)
	case *ast.CallExpr:
		if len(x.Args) == 1 { // conversion T(x)
			return p.eval(x.Args[0], iota)
		}
	case *ast.UnaryExpr:
		v := p.eval(x.X, iota)
		switch x.Op {
		case token.SUB:
			return v.Neg(v)
		case token.ADD:
			return v
		case token.XOR:
			return v.Not(v)
		}
	case *ast.BinaryExpr:
		a, b := p.eval(x.X, iota), p.eval(x.Y, iota)
		switch x.Op {
		case token.ADD:
			return a.Add(a, b)
		case token.SUB:
			return a.Sub(a, b)
		case token.MUL:
			return a.Mul(a, b)
		case token.QUO:
			if b.Sign() == 0 {
				fail(p.fset.Position(x.Pos()), "division by zero")
			}
			return a.Quo(a, b)
		case token.REM:
			return a.Rem(a, b)
		case token.SHL:
			return a.Lsh(a, uint(b.Int64()))
		case token.SHR:
			return a.Rsh(a, uint(b.Int64()))
		case token.AND:
			return a.And(a, b)
		case token.OR:
			return a.Or(a, b)
		case token.XOR:
			return a.Xor(a, b)
		case token.AND_NOT:
			return a.AndNot(a, b)
		}
	}
	fail(p.fset.Position(e.Pos()), "constant expression outside the translated subset (%T)", e)
	return nil
}

func (p *pkgInfo) resolveImport(name string) *pkgInfo {
	for _, f := range p.files {
		for _, im := range f.Imports {
			path, _ := strconv.Unquote(im.Path.Value)
			if !strings.HasPrefix(path, "seehuhn.de/go/pdf") {
				continue
			}
			local := filepath.Base(path)
			if im.Name != nil {
				local = im.Name.Name
			}
			if local == name {
				rel := strings.TrimPrefix(strings.TrimPrefix(path, "seehuhn.de/go/pdf"), "/")
				if rel == "" {
					rel = "."
				}
				return loadPkg(rel)
			}
		}
	}
	return nil
}

func zlit(v *big.Int) string {
	if v.Sign() < 0 {
		return "(" + v.String() + ")"
	}
	return v.String()
}

// ---- tables ----

func (p *pkgInfo) table(it item) []*big.Int {
	e, ok := p.vars[it.Name]
	if !ok {
		panic(terr{"unknown table " + it.Name})
	}
	if call, ok := e.(*ast.CallExpr); ok && len(call.Args) == 1 {
		// []byte("...")
		if lit, ok := call.Args[0].(*ast.BasicLit); ok && lit.Kind == token.STRING {
			s, _ := strconv.Unquote(lit.Value)
			var res []*big.Int
			for i := 0; i < len(s); i++ {
				res = append(res, big.NewInt(int64(s[i])))
			}
			return res
		}
	}
	cl, ok := e.(*ast.CompositeLit)
	if !ok {
		fail(p.fset.Position(e.Pos()), "table %s is not a composite literal", it.Name)
	}
	size := it.Size
	if at, ok := cl.Type.(*ast.ArrayType); ok && at.Len != nil {
		if _, isEll := at.Len.(*ast.Ellipsis); !isEll {
			size = int(p.eval(at.Len, 0).Int64())
		}
	}
	vals := map[int]*big.Int{}
	idx, maxIdx := 0, -1
	for _, el := range cl.Elts {
		if kv, ok := el.(*ast.KeyValueExpr); ok {
			idx = int(p.eval(kv.Key, 0).Int64())
			el = kv.Value
		}
		if it.Field != "" {
			// element is a struct literal {Field: value, ...}; a missing key is 0
			sl, ok := el.(*ast.CompositeLit)
			if !ok {
				fail(p.fset.Position(el.Pos()), "table %s: element is not a struct literal", it.Name)
			}
			v := big.NewInt(0)
			for _, fe := range sl.Elts {
				kv, ok := fe.(*ast.KeyValueExpr)
				if !ok {
					fail(p.fset.Position(fe.Pos()), "table %s: struct literal without field names", it.Name)
				}
				if id, ok := kv.Key.(*ast.Ident); ok && id.Name == it.Field {
					v = p.eval(kv.Value, 0)
				}
			}
			vals[idx] = v
		} else {
			vals[idx] = p.eval(el, 0)
		}
		if idx > maxIdx {
			maxIdx = idx
		}
		idx++
	}
	if size == 0 {
		size = maxIdx + 1
	}
	res := make([]*big.Int, size)
	for i := range res {
		if v, ok := vals[i]; ok {
			res[i] = v
		} else {
			res[i] = big.NewInt(0)
		}
	}
	return res
}

// ---- functions (loop-free integer subset) ----

type fctx struct {
	p      *pkgInfo
	width  int
	signed bool
	locals map[string]bool
	recv   string          // name of the receiver variable (rangebound only)
	fields map[string]bool // receiver fields that are parameters (rangebound only)
}

func (c *fctx) wrap(s string) string {
	if c.width == 0 {
		return s
	}
	if c.signed {
		return fmt.Sprintf("(swrap %d %s)", c.width, s)
	}
	return fmt.Sprintf("(uwrap %d %s)", c.width, s)
}

func (c *fctx) expr(e ast.Expr) string {
	pos := c.p.fset.Position(e.Pos())
	switch x := e.(type) {
	case *ast.BasicLit:
		if x.Kind == token.INT || x.Kind == token.CHAR {
			return zlit(c.p.eval(x, 0))
		}
	case *ast.Ident:
		switch x.Name {
		case "true", "false":
			return x.Name
		}
		if c.locals[x.Name] {
			return "v_" + x.Name
		}
		if _, ok := c.p.consts[x.Name]; ok {
			return zlit(c.p.constVal(x.Name, x.Pos()))
		}
		fail(pos, "identifier %s is neither a local nor a constant", x.Name)
	case *ast.SelectorExpr:
		if id, ok := x.X.(*ast.Ident); ok && c.recv != "" && id.Name == c.recv {
			if c.fields[x.Sel.Name] {
				return "v_" + x.Sel.Name
			}
			fail(pos, "receiver field %s is not listed in params", x.Sel.Name)
		}
		return zlit(c.p.eval(x, 0))
	case *ast.ParenExpr:
		return c.expr(x.X)
	case *ast.CallExpr:
		if id, ok := x.Fun.(*ast.Ident); ok {
			switch id.Name {
			case "min", "max":
				if len(x.Args) == 2 {
					return fmt.Sprintf("(Z.%s %s %s)", id.Name, c.expr(x.Args[0]), c.expr(x.Args[1]))
				}
			case "uint32", "uint64", "uint16", "uint8", "byte", "uint":
				if len(x.Args) == 1 {
					w := map[string]int{"uint32": 32, "uint64": 64, "uint16": 16, "uint8": 8, "byte": 8, "uint": 64}[id.Name]
					return fmt.Sprintf("(uwrap %d %s)", w, c.expr(x.Args[0]))
				}
			case "int32", "int64", "int16", "int8", "int":
				if len(x.Args) == 1 {
					w := map[string]int{"int32": 32, "int64": 64, "int16": 16, "int8": 8, "int": 64}[id.Name]
					return fmt.Sprintf("(swrap %d %s)", w, c.expr(x.Args[0]))
				}
			default:
				// conversion to a named integer type declared in the package
				if len(x.Args) == 1 && c.isNamedInt(id.Name) {
					return c.expr(x.Args[0])
				}
			}
		}
	case *ast.UnaryExpr:
		a := c.expr(x.X)
		switch x.Op {
		case token.XOR:
			if c.signed || c.width == 0 {
				return fmt.Sprintf("(Z.lnot %s)", a)
			}
			return fmt.Sprintf("(Z.lxor %s (Z.ones %d))", a, c.width)
		case token.NOT:
			return fmt.Sprintf("(negb %s)", a)
		case token.SUB:
			return c.wrap(fmt.Sprintf("(- %s)", a))
		}
	case *ast.BinaryExpr:
		a, b := c.expr(x.X), c.expr(x.Y)
		switch x.Op {
		case token.AND:
			return fmt.Sprintf("(Z.land %s %s)", a, b)
		case token.OR:
			return fmt.Sprintf("(Z.lor %s %s)", a, b)
		case token.XOR:
			return fmt.Sprintf("(Z.lxor %s %s)", a, b)
		case token.AND_NOT:
			return fmt.Sprintf("(Z.ldiff %s %s)", a, b)
		case token.SHL:
			return c.wrap(fmt.Sprintf("(Z.shiftl %s %s)", a, b))
		case token.SHR:
			return fmt.Sprintf("(Z.shiftr %s %s)", a, b)
		case token.ADD:
			return c.wrap(fmt.Sprintf("(%s + %s)", a, b))
		case token.SUB:
			return c.wrap(fmt.Sprintf("(%s - %s)", a, b))
		case token.MUL:
			return c.wrap(fmt.Sprintf("(%s * %s)", a, b))
		case token.QUO:
			return fmt.Sprintf("(Z.quot %s %s)", a, b)
		case token.REM:
			return fmt.Sprintf("(Z.rem %s %s)", a, b)
		case token.EQL:
			return fmt.Sprintf("(Z.eqb %s %s)", a, b)
		case token.NEQ:
			return fmt.Sprintf("(negb (Z.eqb %s %s))", a, b)
		case token.LSS:
			return fmt.Sprintf("(Z.ltb %s %s)", a, b)
		case token.LEQ:
			return fmt.Sprintf("(Z.leb %s %s)", a, b)
		case token.GTR:
			return fmt.Sprintf("(Z.ltb %s %s)", b, a)
		case token.GEQ:
			return fmt.Sprintf("(Z.leb %s %s)", b, a)
		case token.LAND:
			return fmt.Sprintf("(andb %s %s)", a, b)
		case token.LOR:
			return fmt.Sprintf("(orb %s %s)", a, b)
		}
	}
	fail(pos, "expression outside the translated subset (%T)", e)
	return ""
}

func (c *fctx) isNamedInt(name string) bool {
	for _, f := range c.p.files {
		for _, d := range f.Decls {
			gd, ok := d.(*ast.GenDecl)
			if !ok || gd.Tok != token.TYPE {
				continue
			}
			for _, sp := range gd.Specs {
				ts := sp.(*ast.TypeSpec)
				if ts.Name.Name != name {
					continue
				}
				if id, ok := ts.Type.(*ast.Ident); ok {
					switch id.Name {
					case "int", "int8", "int16", "int32", "int64", "uint", "uint8", "uint16", "uint32", "uint64", "byte":
						return true
					}
				}
			}
		}
	}
	return false
}

func hasReturn(ss []ast.Stmt) bool {
	found := false
	for _, s := range ss {
		ast.Inspect(s, func(n ast.Node) bool {
			if _, ok := n.(*ast.ReturnStmt); ok {
				found = true
			}
			return !found
		})
	}
	return found
}

func assigned(ss []ast.Stmt, set map[string]bool) {
	for _, s := range ss {
		ast.Inspect(s, func(n ast.Node) bool {
			switch a := n.(type) {
			case *ast.AssignStmt:
				if a.Tok != token.DEFINE {
					for _, l := range a.Lhs {
						if id, ok := l.(*ast.Ident); ok {
							set[id.Name] = true
						}
					}
				}
			case *ast.IncDecStmt:
				if id, ok := a.X.(*ast.Ident); ok {
					set[id.Name] = true
				}
			}
			return true
		})
	}
}

// stmts translates a statement list; k is the Gallina term for "falling off
// the end" (used by blocks without return that are joined by a tuple).
func (c *fctx) stmts(ss []ast.Stmt, k string) string {
	if len(ss) == 0 {
		return k
	}
	s := ss[0]
	pos := c.p.fset.Position(s.Pos())
	rest := func() string { return c.stmts(ss[1:], k) }
	switch s := s.(type) {
	case *ast.ReturnStmt:
		if len(s.Results) != 1 {
			fail(pos, "return with %d results", len(s.Results))
		}
		return c.expr(s.Results[0])
	case *ast.DeclStmt:
		gd := s.Decl.(*ast.GenDecl)
		if gd.Tok != token.VAR {
			fail(pos, "declaration outside the translated subset")
		}
		out := ""
		for _, sp := range gd.Specs {
			vs := sp.(*ast.ValueSpec)
			for j, nm := range vs.Names {
				v := "0"
				if id, ok := vs.Type.(*ast.Ident); ok && id.Name == "bool" {
					v = "false"
				}
				if j < len(vs.Values) {
					v = c.expr(vs.Values[j])
				}
				c.locals[nm.Name] = true
				out += fmt.Sprintf("let v_%s := %s in\n", nm.Name, v)
			}
		}
		return out + rest()
	case *ast.IncDecStmt:
		id, ok := s.X.(*ast.Ident)
		if !ok {
			fail(pos, "inc/dec of a non-identifier")
		}
		op := "+"
		if s.Tok == token.DEC {
			op = "-"
		}
		return fmt.Sprintf("let v_%s := %s in\n%s", id.Name, c.wrap(fmt.Sprintf("(v_%s %s 1)", id.Name, op)), rest())
	case *ast.AssignStmt:
		if len(s.Lhs) != 1 || len(s.Rhs) != 1 {
			fail(pos, "parallel assignment")
		}
		id, ok := s.Lhs[0].(*ast.Ident)
		if !ok {
			fail(pos, "assignment to a non-identifier")
		}
		rhs := c.expr(s.Rhs[0])
		l := "v_" + id.Name
		switch s.Tok {
		case token.DEFINE:
			c.locals[id.Name] = true
		case token.ASSIGN:
		case token.OR_ASSIGN:
			rhs = fmt.Sprintf("(Z.lor %s %s)", l, rhs)
		case token.AND_ASSIGN:
			rhs = fmt.Sprintf("(Z.land %s %s)", l, rhs)
		case token.XOR_ASSIGN:
			rhs = fmt.Sprintf("(Z.lxor %s %s)", l, rhs)
		case token.AND_NOT_ASSIGN:
			rhs = fmt.Sprintf("(Z.ldiff %s %s)", l, rhs)
		case token.ADD_ASSIGN:
			rhs = c.wrap(fmt.Sprintf("(%s + %s)", l, rhs))
		case token.SUB_ASSIGN:
			rhs = c.wrap(fmt.Sprintf("(%s - %s)", l, rhs))
		case token.MUL_ASSIGN:
			rhs = c.wrap(fmt.Sprintf("(%s * %s)", l, rhs))
		case token.SHL_ASSIGN:
			rhs = c.wrap(fmt.Sprintf("(Z.shiftl %s %s)", l, rhs))
		case token.SHR_ASSIGN:
			rhs = fmt.Sprintf("(Z.shiftr %s %s)", l, rhs)
		default:
			fail(pos, "assignment operator %s", s.Tok)
		}
		return fmt.Sprintf("let %s := %s in\n%s", l, rhs, rest())
	case *ast.BlockStmt:
		return c.stmts(append(append([]ast.Stmt{}, s.List...), ss[1:]...), k)
	case *ast.IfStmt:
		if s.Init != nil {
			fail(pos, "if with init statement")
		}
		var elseList []ast.Stmt
		switch e := s.Else.(type) {
		case nil:
		case *ast.BlockStmt:
			elseList = e.List
		case *ast.IfStmt:
			elseList = []ast.Stmt{e}
		}
		cond := c.expr(s.Cond)
		if !hasReturn(s.Body.List) && !hasReturn(elseList) {
			// join by a tuple of the assigned variables: output stays linear
			set := map[string]bool{}
			assigned(s.Body.List, set)
			assigned(elseList, set)
			var vars []string
			for v := range set {
				if c.locals[v] {
					vars = append(vars, v)
				}
			}
			sort.Strings(vars)
			if len(vars) == 0 {
				return rest()
			}
			tup := "v_" + strings.Join(vars, ", v_")
			pat := tup
			if len(vars) > 1 {
				tup = "(" + tup + ")"
				pat = "'" + tup
			}
			saved := copyMap(c.locals)
			a := c.stmts(s.Body.List, tup)
			c.locals = copyMap(saved)
			b := c.stmts(elseList, tup)
			c.locals = saved
			return fmt.Sprintf("let %s := (if %s then\n%s\nelse\n%s) in\n%s", pat, cond, a, b, rest())
		}
		saved := copyMap(c.locals)
		a := c.stmts(append(append([]ast.Stmt{}, s.Body.List...), ss[1:]...), k)
		c.locals = copyMap(saved)
		b := c.stmts(append(append([]ast.Stmt{}, elseList...), ss[1:]...), k)
		c.locals = saved
		return fmt.Sprintf("(if %s then\n%s\nelse\n%s)", cond, a, b)
	case *ast.SwitchStmt:
		if s.Init != nil || s.Tag == nil {
			fail(pos, "switch form outside the translated subset")
		}
		tag := c.expr(s.Tag)
		out := ""
		def := ""
		closers := 0
		for _, cc := range s.Body.List {
			cl := cc.(*ast.CaseClause)
			saved := copyMap(c.locals)
			body := c.stmts(append(append([]ast.Stmt{}, cl.Body...), ss[1:]...), k)
			c.locals = saved
			if cl.List == nil {
				def = body
				continue
			}
			var conds []string
			for _, e := range cl.List {
				conds = append(conds, fmt.Sprintf("(Z.eqb %s %s)", tag, c.expr(e)))
			}
			cond := conds[0]
			for _, x := range conds[1:] {
				cond = fmt.Sprintf("(orb %s %s)", cond, x)
			}
			out += fmt.Sprintf("(if %s then\n%s\nelse\n", cond, body)
			closers++
		}
		if def == "" {
			def = rest()
		}
		return out + def + strings.Repeat(")", closers)
	}
	fail(pos, "statement outside the translated subset (%T)", s)
	return ""
}

func copyMap(m map[string]bool) map[string]bool {
	r := map[string]bool{}
	for k, v := range m {
		r[k] = v
	}
	return r
}

func (p *pkgInfo) function(it item) string {
	key := it.Name
	if it.Recv != "" {
		key = it.Recv + "." + it.Name
	}
	fd, ok := p.funcs[key]
	if !ok {
		panic(terr{"unknown function " + key})
	}
	c := &fctx{p: p, width: it.Width, signed: it.Signed, locals: map[string]bool{}}
	var params []string
	if fd.Recv != nil {
		for _, f := range fd.Recv.List {
			for _, n := range f.Names {
				c.locals[n.Name] = true
				params = append(params, "v_"+n.Name)
			}
		}
	}
	for _, f := range fd.Type.Params.List {
		for _, n := range f.Names {
			c.locals[n.Name] = true
			params = append(params, "v_"+n.Name)
		}
	}
	if fd.Type.Results == nil || len(fd.Type.Results.List) != 1 {
		fail(p.fset.Position(fd.Pos()), "function %s must have one result", key)
	}
	rt := "Z"
	if id, ok := fd.Type.Results.List[0].Type.(*ast.Ident); ok && id.Name == "bool" {
		rt = "bool"
	}
	body := c.stmts(fd.Body.List, "0 (* unreachable: function end *)")
	name := it.As
	if name == "" {
		name = it.Name
	}
	return fmt.Sprintf("Definition %s (%s : Z) : %s :=\n%s.\n", name, strings.Join(params, " "), rt, body)
}

// rangeBound translates the bound of the first `for range <expr>` statement of
// a function: a Gallina function of the receiver fields listed in it.Params.
func (p *pkgInfo) rangeBound(it item) string {
	key := it.Name
	if it.Recv != "" {
		key = it.Recv + "." + it.Name
	}
	fd, ok := p.funcs[key]
	if !ok {
		panic(terr{"unknown function " + key})
	}
	c := &fctx{p: p, width: it.Width, signed: it.Signed, locals: map[string]bool{}, fields: map[string]bool{}}
	if fd.Recv != nil && len(fd.Recv.List) == 1 && len(fd.Recv.List[0].Names) == 1 {
		c.recv = fd.Recv.List[0].Names[0].Name
	}
	var params []string
	for _, f := range it.Params {
		c.fields[f] = true
		params = append(params, "(v_"+f+" : Z)")
	}
	var bound ast.Expr
	ast.Inspect(fd.Body, func(n ast.Node) bool {
		if rs, ok := n.(*ast.RangeStmt); ok && bound == nil && rs.Key == nil && rs.Value == nil {
			bound = rs.X
		}
		return bound == nil
	})
	if bound == nil {
		fail(p.fset.Position(fd.Pos()), "function %s has no `for range <expr>` statement", key)
	}
	name := it.As
	if name == "" {
		name = it.Name + "_bound"
	}
	sep := ""
	if len(params) > 0 {
		sep = " "
	}
	return fmt.Sprintf("Definition %s%s%s : Z := %s.\n", name, sep, strings.Join(params, " "), c.expr(bound))
}

// assignExpr translates the right-hand side of the first `<var> := <expr>`
// statement of a function: a Gallina function of the local identifiers listed
// in it.Params (any other free identifier must be a constant).
func (p *pkgInfo) assignExpr(it item) string {
	key := it.Name
	if it.Recv != "" {
		key = it.Recv + "." + it.Name
	}
	fd, ok := p.funcs[key]
	if !ok {
		panic(terr{"unknown function " + key})
	}
	c := &fctx{p: p, width: it.Width, signed: it.Signed, locals: map[string]bool{}}
	var params []string
	for _, f := range it.Params {
		c.locals[f] = true
		params = append(params, "(v_"+f+" : Z)")
	}
	var rhs ast.Expr
	ast.Inspect(fd.Body, func(n ast.Node) bool {
		if as, ok := n.(*ast.AssignStmt); ok && rhs == nil && as.Tok == token.DEFINE && len(as.Lhs) == 1 && len(as.Rhs) == 1 {
			if id, ok := as.Lhs[0].(*ast.Ident); ok && id.Name == it.Var {
				rhs = as.Rhs[0]
			}
		}
		return rhs == nil
	})
	if rhs == nil {
		fail(p.fset.Position(fd.Pos()), "function %s has no `%s := <expr>` statement", key, it.Var)
	}
	name := it.As
	if name == "" {
		name = it.Name + "_" + it.Var
	}
	sep := ""
	if len(params) > 0 {
		sep = " "
	}
	return fmt.Sprintf("Definition %s%s%s : Z := %s.\n", name, sep, strings.Join(params, " "), c.expr(rhs))
}

// arrayLen evaluates the constant length of an array-typed field of a struct
// type declared in the package.
func (p *pkgInfo) arrayLen(it item) string {
	for _, f := range p.files {
		for _, d := range f.Decls {
			gd, ok := d.(*ast.GenDecl)
			if !ok || gd.Tok != token.TYPE {
				continue
			}
			for _, sp := range gd.Specs {
				ts := sp.(*ast.TypeSpec)
				st, ok := ts.Type.(*ast.StructType)
				if !ok || ts.Name.Name != it.Type {
					continue
				}
				for _, fld := range st.Fields.List {
					for _, nm := range fld.Names {
						if nm.Name != it.Field {
							continue
						}
						at, ok := fld.Type.(*ast.ArrayType)
						if !ok || at.Len == nil {
							fail(p.fset.Position(fld.Pos()), "field %s.%s is not an array with a constant length", it.Type, it.Field)
						}
						name := it.As
						if name == "" {
							name = it.Type + "_" + it.Field + "_len"
						}
						return fmt.Sprintf("Definition %s : Z := %s.\n", name, zlit(p.eval(at.Len, 0)))
					}
				}
				panic(terr{"struct " + it.Type + " has no field " + it.Field})
			}
		}
	}
	panic(terr{"unknown struct type " + it.Type + " in " + it.Pkg})
}

// ---- driver ----

func generate(sp spec) (out string, err error) {
	defer func() {
		if r := recover(); r != nil {
			if t, ok := r.(terr); ok {
				err = fmt.Errorf("%s", t.msg)
				return
			}
			panic(r)
		}
	}()
	var b strings.Builder
	b.WriteString("(* GENERATED by /verif/translate from the Go source of seehuhn/go-pdf. Do not edit. *)\n")
	b.WriteString("From Coq Require Import ZArith Bool List.\nImport ListNotations.\nOpen Scope Z_scope.\n")
	b.WriteString("Definition uwrap (w : Z) (x : Z) : Z := x mod 2^w.\n")
	b.WriteString("Definition swrap (w : Z) (x : Z) : Z := (x + 2^(w-1)) mod 2^w - 2^(w-1).\n\n")
	for _, it := range sp.Items {
		if it.Pkg == "" {
			it.Pkg = "."
		}
		p := loadPkg(it.Pkg)
		switch it.Kind {
		case "const":
			name := it.As
			if name == "" {
				name = it.Name
			}
			if _, ok := p.consts[it.Name]; ok {
				fmt.Fprintf(&b, "Definition %s : Z := %s.\n", name, zlit(p.constVal(it.Name, token.NoPos)))
			} else if e, ok := p.vars[it.Name]; ok {
				// package-level `var x = <const expr>` (limits that tests may shrink)
				fmt.Fprintf(&b, "Definition %s : Z := %s.\n", name, zlit(p.eval(e, 0)))
			} else {
				panic(terr{"unknown constant " + it.Name + " in " + it.Pkg})
			}
		case "consts":
			n := 0
			for _, nm := range p.order {
				c := p.consts[nm]
				// a const block's later names inherit the type of the first
				if nm == "_" {
					continue
				}
				if c.typ == it.Type || it.Type == "" {
					fmt.Fprintf(&b, "Definition %s : Z := %s.\n", nm, zlit(p.constVal(nm, token.NoPos)))
					n++
				}
			}
			if n == 0 {
				panic(terr{"no constants of type " + it.Type})
			}
		case "table":
			vals := p.table(it)
			name := it.As
			if name == "" {
				name = it.Name
			}
			fmt.Fprintf(&b, "Definition %s : list Z :=\n  [", name)
			for i, v := range vals {
				if i > 0 {
					b.WriteString("; ")
					if i%16 == 0 {
						b.WriteString("\n   ")
					}
				}
				b.WriteString(zlit(v))
			}
			b.WriteString("].\n")
		case "func":
			b.WriteString(p.function(it))
		case "rangebound":
			b.WriteString(p.rangeBound(it))
		case "assign":
			b.WriteString(p.assignExpr(it))
		case "arraylen":
			b.WriteString(p.arrayLen(it))
		default:
			panic(terr{"unknown item kind " + it.Kind})
		}
	}
	return b.String(), nil
}

func main() {
	out := flag.String("out", "", "output directory")
	flag.StringVar(&repo, "repo", "/repo", "go-pdf source tree")
	specDir := flag.String("spec", "", "directory with spec files (default: spec.d next to the source)")
	flag.Parse()
	if *specDir == "" {
		exe, _ := os.Executable()
		_ = exe
		*specDir = "/verif/translate/spec.d"
		if v := os.Getenv("VERIF_DIR"); v != "" {
			*specDir = filepath.Join(v, "translate", "spec.d")
		}
	}
	files, _ := filepath.Glob(filepath.Join(*specDir, "*.json"))
	sort.Strings(files)
	bad := 0
	for _, f := range files {
		data, err := os.ReadFile(f)
		if err != nil {
			fmt.Println("translate:", err)
			bad++
			continue
		}
		var sp spec
		if err := json.Unmarshal(data, &sp); err != nil {
			fmt.Println("translate:", f, err)
			bad++
			continue
		}
		text, err := generate(sp)
		if err != nil {
			fmt.Printf("translate: %s: %v\n", sp.Out, err)
			bad++
			continue
		}
		if err := os.WriteFile(filepath.Join(*out, sp.Out), []byte(text), 0o644); err != nil {
			fmt.Println("translate:", err)
			bad++
		}
	}
	if bad > 0 {
		os.Exit(1)
	}
}
