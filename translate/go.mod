module verif/translate

go 1.25
